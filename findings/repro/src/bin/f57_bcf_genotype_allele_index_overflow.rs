//! F57 (C10): both BCF genotype encoders computed `(allele + 1) << 1` in i8: allele indices 63..=126 wrapped into the reserved / missing /
//! end-of-vector codes (silent corruption in every build profile), 127 panicked in debug builds and was written as `./.` in release.
use std::io;

use noodles_bcf as bcf;
use noodles_vcf::{self as vcf, variant::{io::Write as _, RecordBuf}};

fn main() -> io::Result<()> {
    let mut bad = 0;
    for allele in [62usize, 63, 126, 127, 128] {
        let mut text = String::from("##fileformat=VCFv4.3\n##FORMAT=<ID=GT,Number=1,Type=String,Description=\"Genotype\">\n##contig=<ID=sq0,length=1000>\n#CHROM\tPOS\tID\tREF\tALT\tQUAL\tFILTER\tINFO\tFORMAT\ts0\nsq0\t1\t.\tA\t");
        let alts: Vec<String> = (0..allele).map(|i| format!("<A{i}>")).collect();
        text.push_str(&alts.join(","));
        text.push_str(&format!("\t.\t.\t.\tGT\t0/{allele}\n"));
        let mut vr = vcf::io::Reader::new(text.as_bytes());
        let header = vr.read_header()?;
        let original = vr.record_bufs(&header).next().unwrap()?;

        let mut w = bcf::io::Writer::new(Vec::new());
        w.write_variant_header(&header)?;
        let wrote = w.write_variant_record(&header, &original);
        w.try_finish()?;
        let bytes = w.into_inner().into_inner();
        match wrote {
            Err(e) => println!("GT 0/{allele}: writer refused: {e}"),
            Ok(()) => {
                let mut br = bcf::io::Reader::new(&bytes[..]);
                let h2 = br.read_header()?;
                let back = br.record_bufs(&h2).next().unwrap();
                match back {
                    Ok(b) if b.samples() == original.samples() => println!("GT 0/{allele}: round trip ok"),
                    Ok(b) => { println!("GT 0/{allele}: written Ok, read back {:?}  <-- differ", b.samples().values().next().map(|s| format!("{:?}", s.values()))); bad += 1; }
                    Err(e) => { println!("GT 0/{allele}: written Ok, does not read back: {e}  <-- differ"); bad += 1; }
                }
            }
        }
    }
    if bad > 0 { println!("VIOLATED: {bad} genotype(s) accepted by the writer did not round-trip"); std::process::exit(1); }
    println!("holds");
    Ok(())
}
