//! F58 (C05): `bam::record::Sequence::split_at_checked` hands out windows over the packed buffer, but the base iterator decided whether
//! the last byte holds a padding nibble from the length of the WHOLE buffer: the left half of `ACGT` iterated as "A", the right as "G",
//! while len() was 2 for both. The lazy view disagreed with the eager decode for every even-length window that is not the whole read.
use noodles_bam as bam;
use noodles_sam::{self as sam, alignment::{io::Write as _, RecordBuf, record_buf::Sequence as SeqBuf}};

fn main() {
    let mut bad = 0;
    for text in ["ACGT", "ACGTA", "ACGTAC", "A", "AC"] {
        let header = sam::Header::default();
        let rec = RecordBuf::builder().set_sequence(SeqBuf::from(text.as_bytes().to_vec())).build();
        let mut w = bam::io::Writer::from(Vec::new());
        w.write_alignment_record(&header, &rec).unwrap();
        let bytes = w.into_inner();
        let mut r = bam::io::Reader::from(&bytes[..]);
        let mut lazy = bam::Record::default();
        r.read_record(&mut lazy).unwrap();
        let seq = lazy.sequence();
        for mid in 0..=text.len() {
            let Some((left, right)) = seq.split_at_checked(mid) else { continue };
            let l: String = left.iter().map(char::from).collect();
            let r: String = right.iter().map(char::from).collect();
            let ok = l == text[..mid] && r == text[mid..];
            if !ok {
                println!("{text} split at {mid}: left iterates as {l:?} (len {}), right as {r:?} (len {})  <-- expected {:?} / {:?}", left.len(), right.len(), &text[..mid], &text[mid..]);
                bad += 1;
            }
        }
    }
    if bad > 0 { println!("VIOLATED: {bad} window(s) iterate differently from the bases they cover"); std::process::exit(1); }
    println!("holds");
}
