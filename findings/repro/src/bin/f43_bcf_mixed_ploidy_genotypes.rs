//! F43 (C10): BCF genotype writer pads a shorter genotype INSIDE the per-allele loop: every allele of a sample whose ploidy is below
//! the maximum is followed by the padding, so `GT 0/1 0/1/2 1` is written as garbage and read back as different genotypes.
use std::io;

use noodles_bcf as bcf;
use noodles_vcf::{self as vcf, variant::io::Write as _};

fn main() -> io::Result<()> {
    let text = "##fileformat=VCFv4.3\n##contig=<ID=sq0,length=1000>\n##FORMAT=<ID=GT,Number=1,Type=String,Description=\"Genotype\">\n#CHROM\tPOS\tID\tREF\tALT\tQUAL\tFILTER\tINFO\tFORMAT\ts0\ts1\ts2\nsq0\t1\t.\tA\tC,G\t.\t.\t.\tGT\t0/1\t0/1/2\t1\nsq0\t2\t.\tA\tC\t.\t.\t.\tGT\t0/1\t1\t0|1\nsq0\t3\t.\tA\tC\t.\t.\t.\tGT\t0|1\t.|.\t0|.\n";
    let mut reader = vcf::io::Reader::new(text.as_bytes());
    let header = reader.read_header()?;
    let records: Vec<_> = reader.record_bufs(&header).collect::<io::Result<_>>()?;

    let mut writer = bcf::io::Writer::new(Vec::new());
    writer.write_header(&header)?;
    for r in &records { writer.write_variant_record(&header, r)?; }
    let data = writer.into_inner().finish()?;

    let mut reader = bcf::io::Reader::new(&data[..]);
    let h = reader.read_header()?;
    let mut bad = 0;
    let render = |h: &vcf::Header, r: &vcf::variant::RecordBuf| -> io::Result<String> {
        let mut w = vcf::io::Writer::new(Vec::new());
        w.write_variant_record(h, r)?;
        Ok(String::from_utf8_lossy(w.get_ref()).trim_end().to_string())
    };
    let mut it = reader.record_bufs(&h);
    for w in &records {
        let wrote = render(&header, w)?;
        match it.next() {
            Some(Ok(r)) => {
                let read = render(&h, &r)?;
                println!("wrote {wrote}\n read {read}");
                if wrote != read { bad += 1; }
            }
            other => { println!("wrote {wrote}\n read {:?}", other.map(|r| r.map(|_| ()).map_err(|e| e.to_string()))); bad += 1; }
        }
    }
    if bad > 0 { println!("VIOLATED: {bad} of {} records with genotypes of different ploidy do not read back", records.len()); std::process::exit(1); }
    println!("holds");
    Ok(())
}
