//! F37 (C13): a CRAM file cut inside the body of its EOF container (the last 15 bytes) reads as a complete file: all records, then a
//! clean end of stream, no error — although the file ends inside a container.
use std::io;

use noodles_cram as cram;
use noodles_sam::{self as sam, alignment::{io::Write as _, record::Flags, record_buf::{QualityScores, Sequence}, RecordBuf}};

fn main() -> io::Result<()> {
    let header = sam::Header::default();
    let mut writer = cram::io::Writer::new(Vec::new());
    writer.write_header(&header)?;
    for i in 0..20 {
        let record = RecordBuf::builder().set_name(format!("r{i}")).set_flags(Flags::UNMAPPED)
            .set_sequence(Sequence::from(b"ACGT".to_vec())).set_quality_scores(QualityScores::from(vec![30; 4])).build();
        writer.write_alignment_record(&header, &record)?;
    }
    writer.try_finish(&header)?;
    let data = writer.get_ref().clone();

    let mut silent = Vec::new();
    for cut in data.len() - 38..data.len() {
        let mut reader = cram::io::Reader::new(&data[..cut]);
        let result = (|| -> io::Result<usize> {
            let h = reader.read_header()?;
            let mut n = 0;
            for r in reader.records(&h) { r?; n += 1; }
            Ok(n)
        })();
        if let Ok(n) = result { silent.push((cut, n)); }
    }
    println!("file of {} bytes; cuts inside the EOF container (last 38 bytes) that read as a complete file without error: {:?}", data.len(), silent);
    if !silent.is_empty() {
        println!("VIOLATED: {} cut offsets inside the EOF container are read as a clean end of stream", silent.len());
        std::process::exit(1);
    }
    println!("holds");
    Ok(())
}
