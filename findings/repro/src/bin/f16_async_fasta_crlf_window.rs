//! F16 (C12, C16, C11): the async FASTA sequence reader (`fasta::async::io::Reader::read_sequence`) strips the CR of a CRLF
//! line ending only when the LF is in the same `fill_buf` window. When a buffer refill boundary falls between `\r` and
//! `\n`, the `\r` is appended to the sequence as a base. The sync reader handles this case.
use noodles_fasta as fasta;
use tokio::io::BufReader;

#[tokio::main(flavor = "current_thread")]
async fn main() -> std::io::Result<()> {
    let data = b">sq0\r\nACGT\r\nACGT\r\nAC\r\n>sq1\r\nNNNN\r\n";
    let mut bad = 0;
    for cap in 1..=32 {
        // sync
        let mut r = fasta::io::Reader::new(std::io::BufReader::with_capacity(cap, &data[..]));
        let mut def = fasta::record::Definition::default();
        r.read_definition(&mut def)?;
        let mut expected = Vec::new();
        r.read_sequence(&mut expected)?;
        // async
        let mut r = fasta::r#async::io::Reader::new(BufReader::with_capacity(cap, &data[..]));
        let mut def = fasta::record::Definition::default();
        r.read_definition(&mut def).await?;
        let mut actual = Vec::new();
        r.read_sequence(&mut actual).await?;
        if expected != b"ACGTACGTAC" {
            println!("capacity {cap}: SYNC reads {:?}", String::from_utf8_lossy(&expected));
            bad += 1;
        }
        if actual != expected {
            println!("capacity {cap}: async reads {:?}, sync reads {:?}", String::from_utf8_lossy(&actual), String::from_utf8_lossy(&expected));
            bad += 1;
        }
    }
    if bad > 0 {
        println!("DEFECT: decoded FASTA sequence depends on how the stream chunks its reads ({bad} capacities)");
        std::process::exit(1);
    }
    println!("ok: async == sync == ACGTACGTAC for every buffer capacity");
    Ok(())
}
