//! F28 (C18): `line_bufs()` (sync and async) builds `LineBuf::Comment` from the WHOLE line, including the leading `#`, while
//! the writer prepends `#` to the comment text: Comment("hello") is written as `#hello`, read back as Comment("#hello") and
//! re-written as `##hello` — which is a directive.
use std::io;

use bstr::BString;
use noodles_gff::{self as gff, LineBuf};

fn main() -> io::Result<()> {
    let mut writer = gff::io::Writer::new(Vec::new());
    writer.write_line(&LineBuf::Comment(BString::from("hello")))?;
    let text = writer.into_inner();
    print!("written: {}", String::from_utf8_lossy(&text));
    let mut reader = gff::io::Reader::new(&text[..]);
    let lines: Vec<LineBuf> = reader.line_bufs().collect::<io::Result<_>>()?;
    println!("read back: {lines:?}");
    let mut writer = gff::io::Writer::new(Vec::new());
    for l in &lines {
        writer.write_line(l)?;
    }
    let again = writer.into_inner();
    print!("re-written: {}", String::from_utf8_lossy(&again));
    if again == text && matches!(&lines[..], [LineBuf::Comment(s)] if s == "hello") {
        println!("ok: the comment round-trips");
        Ok(())
    } else {
        println!("DEFECT: a comment does not round-trip (and turns into a directive when written again)");
        std::process::exit(1)
    }
}
