//! F18 (C09): the VCF writer percent-encodes Character values that need it (`;` -> `%3B`, `,` -> `%2C`, `%`, `=`, `.`...), the
//! lazy record decodes them, but the EAGER parser (`read_record_buf`, `record_bufs()`) takes the raw text: `%3B` is three
//! characters, so a Character value written by noodles itself fails to read back with "invalid character".
use std::io;

use noodles_vcf::{
    self as vcf,
    header::record::value::{Map, map::{Format, Info, info::Number as INumber, format::Number as FNumber, info::Type as IType, format::Type as FType}},
    variant::{io::Write as _, record_buf::{info::field::Value as IValue, samples::{Keys, sample::Value as SValue}, Info as BInfo, Samples}, RecordBuf},
};

fn main() -> io::Result<()> {
    let header = vcf::Header::builder()
        .add_info("CH", Map::<Info>::new(INumber::Count(1), IType::Character, "a char"))
        .add_format("FC", Map::<Format>::new(FNumber::Count(1), FType::Character, "a char"))
        .add_sample_name("s0")
        .build();
    let info: BInfo = [(String::from("CH"), Some(IValue::Character(';')))].into_iter().collect();
    let keys: Keys = [String::from("FC")].into_iter().collect();
    let samples = Samples::new(keys, vec![vec![Some(SValue::Character(','))]]);
    let record = RecordBuf::builder()
        .set_reference_sequence_name("sq0")
        .set_variant_start(noodles_core::Position::MIN)
        .set_reference_bases("A")
        .set_info(info)
        .set_samples(samples)
        .build();
    let mut writer = vcf::io::Writer::new(Vec::new());
    writer.write_variant_header(&header)?;
    writer.write_variant_record(&header, &record)?;
    let text = writer.into_inner();
    print!("{}", String::from_utf8_lossy(&text).lines().last().unwrap());
    println!();

    let mut reader = vcf::io::Reader::new(&text[..]);
    let header = reader.read_header()?;
    // lazy
    let mut lazy = vcf::Record::default();
    reader.read_record(&mut lazy)?;
    let lazy_buf = RecordBuf::try_from_variant_record(&header, &lazy);
    println!("lazy  -> {:?}", lazy_buf.as_ref().map(|r| r == &record));
    // eager
    let mut reader = vcf::io::Reader::new(&text[..]);
    let header = reader.read_header()?;
    let mut eager = RecordBuf::default();
    match reader.read_record_buf(&header, &mut eager) {
        Ok(_) if eager == record => {
            println!("ok: eager read-back equals what was written");
            Ok(())
        }
        Ok(_) => {
            println!("DEFECT: eager read-back differs: {:?} {:?}", eager.info(), eager.samples());
            std::process::exit(1)
        }
        Err(e) => {
            println!("DEFECT: noodles' own output fails to parse eagerly: {e} ({:?})", std::error::Error::source(&e).map(|s| s.to_string()));
            std::process::exit(1)
        }
    }
}
