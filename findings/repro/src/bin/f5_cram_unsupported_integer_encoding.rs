//! F5 (C15): the integer encoding kind of every CRAM data series comes from the compression header of the file. The
//! header reader accepts Golomb (2), Subexp (7) and Golomb-Rice (8) and builds `Integer::{Golomb, Subexp, GolombRice}`;
//! `Integer::decode` ends in `_ => todo!("decode_itf8: ..")` for them. This program writes a one-record CRAM with
//! noodles, rewrites the BF (BAM flags) series' encoding from `External` to `Subexp{offset: 0, k: 0}` (fixing up the
//! block size, block CRC32, container length, landmarks and container header CRC32, so the file is structurally valid),
//! and reads it back.
use std::io;

use noodles_cram as cram;
use noodles_sam::{
    self as sam,
    alignment::{io::Write as _, record::Flags, record_buf::{QualityScores, Sequence}, RecordBuf},
};

fn crc32(b: &[u8]) -> u32 {
    let mut c = flate2::Crc::new();
    c.update(b);
    c.sum()
}

fn read_itf8(b: &[u8], p: &mut usize) -> i32 {
    let b0 = b[*p] as u32;
    let (n, v) = if b0 < 0x80 {
        (1, b0)
    } else if b0 < 0xc0 {
        (2, ((b0 & 0x3f) << 8) | b[*p + 1] as u32)
    } else if b0 < 0xe0 {
        (3, ((b0 & 0x1f) << 16) | (b[*p + 1] as u32) << 8 | b[*p + 2] as u32)
    } else if b0 < 0xf0 {
        (4, ((b0 & 0x0f) << 24) | (b[*p + 1] as u32) << 16 | (b[*p + 2] as u32) << 8 | b[*p + 3] as u32)
    } else {
        (5, ((b0 & 0x0f) << 28) | (b[*p + 1] as u32) << 20 | (b[*p + 2] as u32) << 12 | (b[*p + 3] as u32) << 4 | (b[*p + 4] as u32 & 0x0f))
    };
    *p += n;
    v as i32
}

fn write_itf8(out: &mut Vec<u8>, v: i32) {
    let v = v as u32;
    if v < 0x80 {
        out.push(v as u8);
    } else if v < 0x4000 {
        out.extend([(v >> 8) as u8 | 0x80, v as u8]);
    } else if v < 0x20_0000 {
        out.extend([(v >> 16) as u8 | 0xc0, (v >> 8) as u8, v as u8]);
    } else if v < 0x1000_0000 {
        out.extend([(v >> 24) as u8 | 0xe0, (v >> 16) as u8, (v >> 8) as u8, v as u8]);
    } else {
        out.extend([(v >> 28) as u8 | 0xf0, (v >> 20) as u8, (v >> 12) as u8, (v >> 4) as u8, v as u8 & 0x0f]);
    }
}

fn skip_ltf8(b: &[u8], p: &mut usize) {
    let n = (b[*p]).leading_ones() as usize;
    *p += n + 1;
}

struct ContainerHeader {
    start: usize,
    len: i32,
    landmarks: Vec<i32>,
    fixed: Vec<u8>, // bytes between the length field and the landmarks array
    end: usize,     // first byte after the header CRC
}

fn parse_container_header(b: &[u8], start: usize) -> ContainerHeader {
    let len = i32::from_le_bytes(b[start..start + 4].try_into().unwrap());
    let mut p = start + 4;
    let f0 = p;
    for _ in 0..4 {
        read_itf8(b, &mut p); // ref id, start, span, n records
    }
    skip_ltf8(b, &mut p); // record counter
    skip_ltf8(b, &mut p); // bases
    read_itf8(b, &mut p); // n blocks
    let fixed = b[f0..p].to_vec();
    let n = read_itf8(b, &mut p);
    let landmarks = (0..n).map(|_| read_itf8(b, &mut p)).collect();
    ContainerHeader { start, len, landmarks, fixed, end: p + 4 }
}

fn main() -> io::Result<()> {
    let header = sam::Header::default();
    let record = RecordBuf::builder()
        .set_name("r0")
        .set_flags(Flags::UNMAPPED)
        .set_sequence(Sequence::from(b"ACGT"))
        .set_quality_scores(QualityScores::from(vec![30, 30, 30, 30]))
        .build();
    let mut writer = cram::io::Writer::new(Vec::new());
    writer.write_header(&header)?;
    writer.write_alignment_record(&header, &record)?;
    writer.try_finish(&header)?;
    let src = writer.get_ref().clone();

    // sanity: the unmodified file reads back
    {
        let mut reader = cram::io::Reader::new(&src[..]);
        reader.read_header()?;
        let n = reader.records(&header).collect::<io::Result<Vec<_>>>()?.len();
        assert_eq!(n, 1);
    }

    // file definition (26 bytes), header container, data container
    let hc = parse_container_header(&src, 26);
    let dc = parse_container_header(&src, hc.end + hc.len as usize);

    // first block of the data container: the compression header
    let bs = dc.end;
    let (method, ctype) = (src[bs], src[bs + 1]);
    assert_eq!((method, ctype), (0, 1), "expected a raw compression header block");
    let mut p = bs + 2;
    let cid = read_itf8(&src, &mut p);
    let csize = read_itf8(&src, &mut p) as usize;
    let _usize = read_itf8(&src, &mut p);
    let data = &src[p..p + csize];
    let block_end = p + csize + 4;

    // compression header = preservation map | data series encodings | tag encodings; each is itf8(size) + bytes
    let mut q = 0;
    let pm_size = read_itf8(data, &mut q) as usize;
    q += pm_size;
    let ds_start = q;
    let ds_size = read_itf8(data, &mut q) as usize;
    let ds_body = &data[q..q + ds_size];
    let rest = &data[q + ds_size..];

    let mut r = 0;
    let count = read_itf8(ds_body, &mut r);
    let mut new_body = Vec::new();
    write_itf8(&mut new_body, count);
    let mut patched = false;
    for _ in 0..count {
        let key = [ds_body[r], ds_body[r + 1]];
        r += 2;
        let e0 = r;
        let kind = read_itf8(ds_body, &mut r);
        let alen = read_itf8(ds_body, &mut r) as usize;
        r += alen;
        new_body.extend(key);
        if &key == b"BF" {
            assert_eq!(kind, 1, "BF is expected to be External in noodles' own output");
            new_body.extend([0x07, 0x02, 0x00, 0x00]); // Subexp, 2 arg bytes, offset 0, k 0
            patched = true;
        } else {
            new_body.extend(&ds_body[e0..r]);
        }
    }
    assert!(patched);

    let mut new_data = data[..ds_start].to_vec();
    write_itf8(&mut new_data, new_body.len() as i32);
    new_data.extend(&new_body);
    new_data.extend(rest);

    let mut new_block = vec![method, ctype];
    write_itf8(&mut new_block, cid);
    write_itf8(&mut new_block, new_data.len() as i32);
    write_itf8(&mut new_block, new_data.len() as i32);
    new_block.extend(&new_data);
    let c = crc32(&new_block);
    new_block.extend(c.to_le_bytes());
    let delta = new_block.len() as i32 - (block_end - bs) as i32;

    let mut new_header = Vec::new();
    new_header.extend((dc.len + delta).to_le_bytes());
    new_header.extend(&dc.fixed);
    write_itf8(&mut new_header, dc.landmarks.len() as i32);
    for l in &dc.landmarks {
        write_itf8(&mut new_header, l + delta);
    }
    let c = crc32(&new_header);
    new_header.extend(c.to_le_bytes());

    let mut hostile = src[..dc.start].to_vec();
    hostile.extend(&new_header);
    hostile.extend(&new_block);
    hostile.extend(&src[block_end..]);

    let result = std::panic::catch_unwind(|| {
        let mut reader = cram::io::Reader::new(&hostile[..]);
        reader.read_header()?;
        let header = sam::Header::default();
        reader.records(&header).collect::<io::Result<Vec<_>>>().map(|v| v.len())
    });
    match result {
        Ok(Ok(n)) => println!("read {n} record(s) (?)"),
        Ok(Err(e)) => println!("ok: hostile encoding reported as an error: {e}"),
        Err(_) => {
            println!("DEFECT: a CRAM whose compression header declares a Subexp integer encoding makes the reader panic (todo!)");
            std::process::exit(1)
        }
    }
    Ok(())
}
