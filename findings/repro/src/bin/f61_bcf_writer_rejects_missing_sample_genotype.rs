//! F61 (C10, C20): the BCF writer refused (InvalidInput) every record in which the genotype of ONE sample is missing (`GT` = `.`), a
//! common VCF value: VCF -> BCF conversion of such a file failed. BCF stores it as a single missing allele followed by end-of-vector
//! padding (what htslib writes); the record then converts back to the same VCF text.
use std::io;

use noodles_bcf as bcf;
use noodles_vcf::{self as vcf, variant::{io::Write as _, RecordBuf}};

fn main() -> io::Result<()> {
    let mut bad = 0;
    for gt in ["0/1\t.", ".\t0/1", ".\t.", "0|1|2\t."] {
        let text = format!("##fileformat=VCFv4.3\n##FORMAT=<ID=GT,Number=1,Type=String,Description=\"Genotype\">\n##contig=<ID=sq0,length=1000>\n#CHROM\tPOS\tID\tREF\tALT\tQUAL\tFILTER\tINFO\tFORMAT\ts0\ts1\nsq0\t1\t.\tA\tC,G\t.\t.\t.\tGT\t{gt}\n");
        let mut vr = vcf::io::Reader::new(text.as_bytes());
        let header = vr.read_header()?;
        let original: RecordBuf = vr.record_bufs(&header).next().unwrap()?;
        let mut w = bcf::io::Writer::new(Vec::new());
        w.write_variant_header(&header)?;
        if let Err(e) = w.write_variant_record(&header, &original) {
            println!("GT {gt:?}: the BCF writer refuses the record: {e}");
            bad += 1;
            continue;
        }
        w.try_finish()?;
        let bytes = w.into_inner().into_inner();
        let mut br = bcf::io::Reader::new(&bytes[..]);
        let h2 = br.read_header()?;
        let back = br.record_bufs(&h2).next().unwrap()?;
        let mut vw = vcf::io::Writer::new(Vec::new());
        vw.write_variant_record(&h2, &back)?;
        let line = String::from_utf8(vw.into_inner()).unwrap();
        let want = text.lines().last().unwrap();
        if line.trim_end() == want { println!("GT {gt:?}: VCF -> BCF -> VCF gives the same line"); }
        else { println!("GT {gt:?}: VCF -> BCF -> VCF gives {:?}", line.trim_end()); bad += 1; }
    }
    if bad > 0 { println!("VIOLATED: {bad} record(s) with a missing sample genotype do not survive VCF -> BCF"); std::process::exit(1); }
    println!("holds");
    Ok(())
}
