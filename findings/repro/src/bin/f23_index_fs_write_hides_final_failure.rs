//! F23 (C14): the sync `fs::write` helpers of the index formats (BAI, CSI, tabix, CRAI, GZI, FAI) create a buffering or
//! compressing writer over the file, write the index and return without flushing / finishing it. The tail — for a small index
//! the whole file — is only written when the writer is dropped, where a destination failure is swallowed. Writing to /dev/full
//! (every write fails with ENOSPC) returns Ok(()) from all six. Their async twins all call shutdown().
use std::io;

use noodles_bam::bai;
use noodles_bgzf::gzi;
use noodles_cram::crai;
use noodles_csi as csi;
use noodles_fasta::fai;

fn main() -> io::Result<()> {
    let dst = "/dev/full";
    let mut hidden = 0;
    let mut report = |name: &str, r: io::Result<()>| {
        println!("{name}::fs::write(\"/dev/full\", ..) -> {r:?}");
        if r.is_ok() {
            hidden += 1;
        }
    };
    report("bai", bai::fs::write(dst, &bai::Index::default()));
    report("csi", csi::fs::write(dst, &csi::Index::default()));
    let tbx = noodles_tabix::Index::builder().set_header(csi::binning_index::index::header::Builder::gff().build()).build();
    report("tabix", noodles_tabix::fs::write(dst, &tbx));
    report("crai", crai::fs::write(dst, &[crai::Record::default()]));
    report("gzi", gzi::fs::write(dst, &gzi::Index::default()));
    let fa = fai::Index::from(vec![fai::Record::new("sq0", 8, 4, std::num::NonZero::new(80).unwrap(), std::num::NonZero::new(81).unwrap())]);
    report("fai", fai::fs::write(dst, &fa));
    if hidden > 0 {
        println!("DEFECT: {hidden} of 6 index writers report success for a file that could not be written");
        std::process::exit(1);
    }
    println!("ok: every helper returns the destination's error");
    Ok(())
}
