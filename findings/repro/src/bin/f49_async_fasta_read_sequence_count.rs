//! F49 (C16): `fasta::io::Reader::read_sequence` returns the number of bases read (documented); the async twin returned the number
//! of bytes consumed from the stream, line terminators included.
use std::io;

use noodles_fasta::{self as fasta, record::Definition};

#[tokio::main(flavor = "current_thread")]
async fn main() -> io::Result<()> {
    let mut bad = 0;
    for data in [&b">sq0\nACGT\nAC\n>sq1\nNN\n"[..], b">sq0\r\nACGT\r\nAC\r\n", b">sq0\nACGT"] {
        let mut r = fasta::io::Reader::new(data);
        r.read_definition(&mut Definition::default())?;
        let mut sbuf = Vec::new();
        let s = r.read_sequence(&mut sbuf)?;

        let mut r = fasta::r#async::io::Reader::new(data);
        r.read_definition(&mut Definition::default()).await?;
        let mut abuf = Vec::new();
        let a = r.read_sequence(&mut abuf).await?;

        let ok = s == a && sbuf == abuf;
        println!("{:?}: sync returns {s} ({} bases), async returns {a} ({} bases){}", String::from_utf8_lossy(data), sbuf.len(), abuf.len(),
                 if ok { "" } else { "  <-- differ" });
        if !ok { bad += 1; }
    }
    if bad > 0 {
        println!("VIOLATED: the async reader's read_sequence result differs from the sync reader's on {bad} input(s)");
        std::process::exit(1);
    }
    println!("holds");
    Ok(())
}
