//! Lead: do the lazy `from_fn` field iterators terminate after an error?
use noodles_sam as sam;
use noodles_bam as bam;
use noodles_vcf as vcf;

fn count<I: Iterator<Item = Result<T, E>>, T, E>(it: I) -> (usize, usize) {
    let mut n = 0; let mut e = 0;
    for r in it { n += 1; if r.is_err() { e += 1; } if n > 100_000 { break; } }
    (n, e)
}

fn main() {
    // SAM lazy cigar
    for cig in ["8Z", "M", "8", "8M8", "8M*", "Z8", "8ZZ", "8M-1M", "8MZ8M", "8M+"] {
        let line = format!("r0\t0\tsq0\t1\t255\t{cig}\t*\t0\t0\tACGTACGT\t*\n");
        let mut reader = sam::io::Reader::new(line.as_bytes());
        let mut record = sam::Record::default();
        if reader.read_record(&mut record).is_ok() {
            let (n, e) = count(record.cigar().iter());
            println!("sam cigar {cig:?}: {n} items, {e} errors{}", if n > 100_000 { "  <-- DOES NOT TERMINATE" } else { "" });
        }
    }
    // SAM lazy data
    for data in ["XA:B:C\tXB:i:1", "XA:i:x\tXB:i:1", "XA:Q:1", "XA:i", "XA", "XA:Z:a\tXB"] {
        let line = format!("r0\t4\t*\t0\t255\t*\t*\t0\t0\t*\t*\t{data}\n");
        let mut reader = sam::io::Reader::new(line.as_bytes());
        let mut record = sam::Record::default();
        if reader.read_record(&mut record).is_ok() {
            let (n, e) = count(record.data().iter());
            println!("sam data {data:?}: {n} items, {e} errors{}", if n > 100_000 { "  <-- DOES NOT TERMINATE" } else { "" });
        }
    }
    // BAM lazy data: a raw BAM record with the given aux bytes
    for (label, bytes) in [("bad type", &b"XAQ\x01"[..]), ("truncated int", &b"XAi\x01"[..]), ("bad subtype", &b"XABQ\x01\x00\x00\x00\x01"[..]), ("tag only", &b"XA"[..]), ("array count beyond", &b"XABC\xff\xff\xff\x7f\x01"[..])] {
        let mut rec: Vec<u8> = Vec::new();
        rec.extend_from_slice(&(-1i32).to_le_bytes()); rec.extend_from_slice(&(-1i32).to_le_bytes());
        rec.push(2); rec.push(255); rec.extend_from_slice(&4680u16.to_le_bytes()); rec.extend_from_slice(&0u16.to_le_bytes()); rec.extend_from_slice(&4u16.to_le_bytes());
        rec.extend_from_slice(&0u32.to_le_bytes()); rec.extend_from_slice(&(-1i32).to_le_bytes()); rec.extend_from_slice(&(-1i32).to_le_bytes()); rec.extend_from_slice(&0i32.to_le_bytes());
        rec.extend_from_slice(b"*\0"); rec.extend_from_slice(bytes);
        let mut file = Vec::new();
        file.extend_from_slice(&(rec.len() as u32).to_le_bytes()); file.extend_from_slice(&rec);
        let mut reader = bam::io::Reader::from(&file[..]);
        let mut record = bam::Record::default();
        match reader.read_record(&mut record) {
            Ok(_) => {
                let (n, e) = count(record.data().iter());
                println!("bam data {label}: {n} items, {e} errors{}", if n > 100_000 { "  <-- DOES NOT TERMINATE" } else { "" });
            }
            Err(e) => println!("bam data {label}: read_record error {e}"),
        }
    }
    // VCF lazy genotype / info / samples
    let header = vcf::Header::default();
    for info in ["DP=x;AF=1", "=;", ";;", "DP=1;;AF"] {
        let line = format!("sq0\t1\t.\tA\t.\t.\t.\t{info}\n");
        let mut reader = vcf::io::Reader::new(line.as_bytes());
        let mut record = vcf::Record::default();
        if reader.read_record(&mut record).is_ok() {
            let (n, e) = count(record.info().iter(&header));
            println!("vcf info {info:?}: {n} items, {e} errors{}", if n > 100_000 { "  <-- DOES NOT TERMINATE" } else { "" });
        }
    }
    // VCF lazy genotype
    use vcf::variant::record::samples::series::value::Genotype as _;
    use vcf::variant::record::samples::Sample as _;
    for gt in ["0/x", "0//1", "/", "0|", "x", "0/1/", "0:1"] {
        let hdr: vcf::Header = "##fileformat=VCFv4.3\n##FORMAT=<ID=GT,Number=1,Type=String,Description=\"\">\n#CHROM\tPOS\tID\tREF\tALT\tQUAL\tFILTER\tINFO\tFORMAT\ts0\n".parse().unwrap();
        let line = format!("sq0\t1\t.\tA\t.\t.\t.\t.\tGT\t{gt}\n");
        let mut reader = vcf::io::Reader::new(line.as_bytes());
        let mut record = vcf::Record::default();
        if reader.read_record(&mut record).is_ok() {
            let samples = record.samples();
            for sample in samples.iter() {
                for v in sample.iter(&hdr) {
                    match v {
                        Ok((_, Some(vcf::variant::record::samples::series::Value::Genotype(g)))) => {
                            let (n, e) = count(g.iter());
                            println!("vcf genotype {gt:?}: {n} items, {e} errors{}", if n > 100_000 { "  <-- DOES NOT TERMINATE" } else { "" });
                        }
                        other => println!("vcf genotype {gt:?}: value {:?}", other.map(|_| ()).map_err(|e| e.to_string())),
                    }
                }
            }
        }
    }
}
