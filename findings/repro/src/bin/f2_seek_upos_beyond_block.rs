//! F2 (C15/C02): seeking to a virtual position whose in-block offset exceeds the block's length (what a corrupt
//! index chunk offset does) is accepted; the next read slices buf[pos..len] with pos > len and panics.
use std::io::{self, Cursor, Read, Write};

use noodles_bgzf::{self as bgzf, io::Seek as _};

fn main() -> io::Result<()> {
    let mut w = bgzf::io::Writer::new(Vec::new());
    w.write_all(b"noodles")?;
    let data = w.finish()?;
    let pos = bgzf::VirtualPosition::try_from((0u64, 100u16)).unwrap();

    let d = data.clone();
    let r1 = std::panic::catch_unwind(move || {
        let mut r = bgzf::io::Reader::new(Cursor::new(d));
        let res = r.seek(pos);
        let mut b = [0u8; 1];
        (res.is_ok(), r.read_exact(&mut b).is_ok())
    });
    println!("sync: {:?}", r1.as_ref().map_err(|_| "PANIC"));
    let d = data.clone();
    let r2 = std::panic::catch_unwind(move || {
        let mut r = bgzf::io::MultithreadedReader::new(Cursor::new(d));
        let res = r.seek_to_virtual_position(pos);
        let mut b = [0u8; 1];
        (res.is_ok(), r.read_exact(&mut b).is_ok())
    });
    println!("mt: {:?}", r2.as_ref().map_err(|_| "PANIC"));
    if r1.is_err() || r2.is_err() {
        println!("DEFECT REPRODUCED");
        std::process::exit(1);
    }
    println!("ok");
    Ok(())
}
