//! F38 (C07): an unnamed record (QNAME *) shifted the read-name series of its slice: the CRAM writer wrote the marker "*\0" through the
//! NUL-terminated name encoding ("*\0\0"), the reader took "*" and then "" for the next record: [*, b, c] read back as ["*", "", "b"].
use std::io;
use noodles_cram as cram;
use noodles_sam::{self as sam, alignment::{io::Write as _, record::Flags, record_buf::{QualityScores, Sequence}, RecordBuf}};
fn main() -> io::Result<()> {
    let header = sam::Header::default();
    let mut bad = 0;
    for names in [vec![None, Some("b"), Some("c")], vec![Some("a"), None, Some("c")], vec![Some("a"), Some("b"), None], vec![None, None]] {
        let mut writer = cram::io::Writer::new(Vec::new());
        writer.write_header(&header)?;
        for n in &names {
            let mut b = RecordBuf::builder().set_flags(Flags::UNMAPPED).set_sequence(Sequence::from(b"ACGT".to_vec())).set_quality_scores(QualityScores::from(vec![30; 4]));
            if let Some(n) = n { b = b.set_name(*n); }
            writer.write_alignment_record(&header, &b.build())?;
        }
        writer.try_finish(&header)?;
        let data = writer.get_ref().clone();
        let mut reader = cram::io::Reader::new(&data[..]);
        let h = reader.read_header()?;
        let mut out = Vec::new();
        for r in reader.records(&h) { let r = r?; out.push(r.name().map(|n| String::from_utf8_lossy(n.as_ref()).into_owned())); }
        println!("wrote {:?}\n read {:?}", names, out);
        for (w, r) in names.iter().zip(&out) {
            if let Some(w) = w { if r.as_deref() != Some(*w) { bad += 1; } }
        }
        if out.len() != names.len() { bad += 1; }
    }
    if bad > 0 { println!("VIOLATED: {bad} named records read back with a different name"); std::process::exit(1); }
    println!("holds: every named record keeps its name");
    Ok(())
}
