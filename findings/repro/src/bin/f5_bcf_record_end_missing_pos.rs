//! F5 (C15): `bcf::Record::end()` reaches `todo!()` when the record's POS field holds the value the writer emits for a
//! missing position (telomeric `POS=0` in VCF, -1 in BCF). `end()` is what the async BCF region query's filter calls for
//! every record of a chunk, so one such record in a queried chunk aborts the process.
use std::io;

use noodles_bcf as bcf;
use noodles_vcf::{
    self as vcf,
    header::record::value::{Map, map::Contig},
    variant::io::Write as _,
};

fn main() -> io::Result<()> {
    let header = vcf::Header::builder().add_contig("sq0", Map::<Contig>::new()).build();
    // a telomeric record: no variant start
    let mut record = vcf::variant::RecordBuf::builder().set_reference_sequence_name("sq0").set_reference_bases("N").build();
    *record.variant_start_mut() = None;
    let mut writer = bcf::io::Writer::new(Vec::new());
    writer.write_variant_header(&header)?;
    writer.write_variant_record(&header, &record)?;
    let data = {
        writer.try_finish()?;
        writer.get_ref().get_ref().clone()
    };
    let mut reader = bcf::io::Reader::new(&data[..]);
    reader.read_header()?;
    let mut rec = bcf::Record::default();
    reader.read_record(&mut rec)?;
    println!("variant_start = {:?}", rec.variant_start());
    match std::panic::catch_unwind(|| rec.end()) {
        Ok(r) => {
            println!("ok: end() -> {r:?}");
            Ok(())
        }
        Err(_) => {
            println!("DEFECT: bcf::Record::end() panics (todo!) on a record without a variant start");
            std::process::exit(1)
        }
    }
}
