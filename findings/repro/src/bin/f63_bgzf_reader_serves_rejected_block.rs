//! F63 (C13): after a block failed its CRC check the single-threaded BGZF reader still SERVED the rejected block's bytes on the next read
//! (the block had already been initialised with the length from the trailer), and did not advance its position over the frame: a caller
//! that continues after the error (`filter_map(Result::ok)` over records) got fabricated data and virtual positions that were too small.
use std::io::{self, Read, Write};

use noodles_bgzf as bgzf;

fn main() -> io::Result<()> {
    let mut w = bgzf::io::Writer::new(Vec::new());
    w.write_all(b"noodles")?; w.flush()?;
    w.write_all(b"-")?; w.flush()?;
    w.write_all(b"bgzf")?;
    let mut data = w.finish()?;
    // frames: 0 ("noodles"), then "-" , then "bgzf", then EOF; corrupt one payload bit of the 2nd frame's CRC32
    let mut r = bgzf::io::Reader::new(&data[..]);
    let mut first = [0u8; 7];
    r.read_exact(&mut first)?;
    let second_start = u64::from(r.virtual_position()) >> 16;
    drop(r);
    let bsize = u16::from_le_bytes([data[second_start as usize + 16], data[second_start as usize + 17]]) as usize + 1;
    let crc_at = second_start as usize + bsize - 8;
    data[crc_at] ^= 0x01;

    let mut r = bgzf::io::Reader::new(&data[..]);
    let mut out = Vec::new();
    let mut errors = 0;
    let mut buf = [0u8; 16];
    let mut positions = Vec::new();
    loop {
        match r.read(&mut buf) {
            Ok(0) => break,
            Ok(n) => { out.extend_from_slice(&buf[..n]); positions.push(u64::from(r.virtual_position()) >> 16); }
            Err(_) => { errors += 1; if errors > 3 { break; } }
        }
    }
    println!("delivered {:?} with {errors} error(s); compressed positions after each read {:?}; file length {}", String::from_utf8_lossy(&out), positions, data.len());
    let mut bad = false;
    if out != b"noodlesbgzf" { println!("VIOLATED: the reader delivered bytes of the block it had rejected"); bad = true; }
    if positions.last().copied() != Some(data.len() as u64 - 28) && positions.last().copied() != Some(data.len() as u64) {
        println!("VIOLATED: the position after the last data block is not the position of the EOF block"); bad = true;
    }
    if bad { std::process::exit(1); }
    println!("holds");
    Ok(())
}
