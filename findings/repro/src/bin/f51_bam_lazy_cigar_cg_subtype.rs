//! F51 (C15): the lazy BAM record's `cigar()` takes the raw bytes of a `CG` array of ANY subtype as the overflow CIGAR; a CG array of
//! bytes whose length is not a multiple of 4 reached `unreachable!()` in `Cigar::iter` (one corrupt subtype byte in a record that
//! uses the CG convention). The RecordBuf decoder rejects the same record with InvalidData.
use std::io;

use noodles_bam as bam;

fn main() -> io::Result<()> {
    // block: ref -1, pos -1, l_read_name 2, mapq 255, bin 4680, n_cigar_op 2, flag 4, l_seq 4, mate ref -1, mate pos -1, tlen 0,
    // name "*\0", cigar 4S 1N, seq (2 bytes), qual (4 bytes), data CG:B:C,1,2,3
    let mut rec: Vec<u8> = Vec::new();
    rec.extend_from_slice(&(-1i32).to_le_bytes());
    rec.extend_from_slice(&(-1i32).to_le_bytes());
    rec.push(2); rec.push(255);
    rec.extend_from_slice(&4680u16.to_le_bytes());
    rec.extend_from_slice(&2u16.to_le_bytes());
    rec.extend_from_slice(&4u16.to_le_bytes());
    rec.extend_from_slice(&4u32.to_le_bytes());
    rec.extend_from_slice(&(-1i32).to_le_bytes());
    rec.extend_from_slice(&(-1i32).to_le_bytes());
    rec.extend_from_slice(&0i32.to_le_bytes());
    rec.extend_from_slice(b"*\0");
    rec.extend_from_slice(&((4u32 << 4) | 4).to_le_bytes());
    rec.extend_from_slice(&((1u32 << 4) | 3).to_le_bytes());
    rec.extend_from_slice(&[0x12, 0x48]);
    rec.extend_from_slice(&[30, 30, 30, 30]);
    rec.extend_from_slice(b"CGBC");
    rec.extend_from_slice(&3u32.to_le_bytes());
    rec.extend_from_slice(&[1, 2, 3]);

    let mut src = Vec::new();
    src.extend_from_slice(&(rec.len() as u32).to_le_bytes());
    src.extend_from_slice(&rec);

    let mut reader = bam::io::Reader::from(&src[..]);
    let mut record = bam::Record::default();
    reader.read_record(&mut record)?;

    let r = std::panic::catch_unwind(|| record.cigar().iter().collect::<Vec<_>>());
    match r {
        Ok(ops) => {
            println!("cigar: {ops:?}");
            println!("holds (no panic)");
            Ok(())
        }
        Err(_) => {
            println!("VIOLATED: bam::Record::cigar().iter() panicked on a CG array of subtype C");
            std::process::exit(1);
        }
    }
}
