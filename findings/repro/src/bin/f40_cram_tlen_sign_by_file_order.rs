//! F40 (C07): the CRAM reader gave the positive TLEN to the FIRST record of an attached mate chain in file order, not to the
//! leftmost segment: for a pair whose rightmost segment comes first in the slice both TLEN signs came back flipped.
use std::io;
use noodles_cram as cram;
use noodles_core::Position;
use noodles_fasta as fasta;
use noodles_sam::{self as sam, alignment::{io::Write as _, record::{Flags, MappingQuality}, record::cigar::{op::Kind, Op}, record_buf::{Cigar, QualityScores, Sequence}, RecordBuf}, header::record::value::{map::ReferenceSequence, Map}};

fn main() -> io::Result<()> {
    let reference: Vec<u8> = (0..2000).map(|i| b"ACGT"[(i * 7 + i / 3) % 4]).collect();
    let header = sam::Header::builder().add_reference_sequence("sq0", Map::<ReferenceSequence>::new(std::num::NonZero::new(2000).unwrap())).build();
    let repo = fasta::Repository::new(vec![fasta::Record::new(fasta::record::Definition::new("sq0", None), fasta::record::Sequence::from(reference.clone()))]);
    let mk = |name: &str, flags: Flags, pos: usize, mpos: usize, tlen: i32| {
        RecordBuf::builder().set_name(name).set_flags(flags).set_reference_sequence_id(0).set_alignment_start(Position::try_from(pos).unwrap())
            .set_mapping_quality(MappingQuality::new(30).unwrap()).set_cigar(Cigar::from(vec![Op::new(Kind::Match, 80)]))
            .set_mate_reference_sequence_id(0).set_mate_alignment_start(Position::try_from(mpos).unwrap()).set_template_length(tlen)
            .set_sequence(Sequence::from(reference[pos - 1..pos + 79].to_vec())).set_quality_scores(QualityScores::from(vec![30; 80])).build()
    };
    let mut bad = 0;
    let cases: Vec<(&str, Vec<RecordBuf>)> = vec![
        ("leftmost first", vec![mk("t0", Flags::SEGMENTED | Flags::FIRST_SEGMENT | Flags::MATE_REVERSE_COMPLEMENTED, 100, 500, 480), mk("t0", Flags::SEGMENTED | Flags::LAST_SEGMENT | Flags::REVERSE_COMPLEMENTED, 500, 100, -480)]),
        ("rightmost first (file not sorted)", vec![mk("t0", Flags::SEGMENTED | Flags::FIRST_SEGMENT | Flags::REVERSE_COMPLEMENTED, 500, 100, -480), mk("t0", Flags::SEGMENTED | Flags::LAST_SEGMENT | Flags::MATE_REVERSE_COMPLEMENTED, 100, 500, 480)]),
    ];
    for (label, recs) in cases {
        let mut writer = cram::io::writer::Builder::default().set_reference_sequence_repository(repo.clone()).build_from_writer(Vec::new());
        writer.write_header(&header)?;
        for r in &recs { writer.write_alignment_record(&header, r)?; }
        writer.try_finish(&header)?;
        let data = writer.get_ref().clone();
        let mut reader = cram::io::reader::Builder::default().set_reference_sequence_repository(repo.clone()).build_from_reader(&data[..]);
        let h = reader.read_header()?;
        println!("{label}:");
        for (w, r) in recs.iter().zip(reader.records(&h)) {
            let r = RecordBuf::try_from_alignment_record(&h, &r?)?;
            if w.template_length() != r.template_length() { bad += 1; }
            println!("   wrote pos {:?} mpos {:?} tlen {}   read pos {:?} mpos {:?} tlen {}", w.alignment_start().map(usize::from), w.mate_alignment_start().map(usize::from), w.template_length(), r.alignment_start().map(usize::from), r.mate_alignment_start().map(usize::from), r.template_length());
        }
    }
    if bad > 0 { println!("VIOLATED: {bad} records read back with a different TLEN"); std::process::exit(1); }
    println!("holds");
    Ok(())
}
