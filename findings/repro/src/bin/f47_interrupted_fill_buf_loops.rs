//! F47 (C12): the hand-written `fill_buf()?` scanning loops of the text readers propagate a spurious ErrorKind::Interrupted from the
//! source as an error (std's read_until / read_exact retry it): the same input read through a source that is interrupted now and
//! then fails, or — FASTA — never terminates.
use std::io::{self, BufRead, BufReader, Read};
use std::{sync::mpsc, thread, time::Duration};

struct Interrupting<R> { inner: R, calls: usize, every: usize }
impl<R: Read> Read for Interrupting<R> {
    fn read(&mut self, buf: &mut [u8]) -> io::Result<usize> {
        self.calls += 1;
        if self.calls % self.every == 0 { return Err(io::Error::from(io::ErrorKind::Interrupted)); }
        self.inner.read(buf)
    }
}

struct InterruptAt<R> { inner: R, pos: usize, trigger: usize, fired: bool }
impl<R: Read> Read for InterruptAt<R> {
    fn read(&mut self, buf: &mut [u8]) -> io::Result<usize> {
        if self.pos >= self.trigger && !self.fired { self.fired = true; return Err(io::Error::from(io::ErrorKind::Interrupted)); }
        let n = self.inner.read(buf)?; self.pos += n; Ok(n)
    }
}

fn src(data: &'static [u8], every: usize) -> BufReader<Interrupting<&'static [u8]>> {
    BufReader::with_capacity(16, Interrupting { inner: data, calls: 0, every })
}

fn with_watchdog<F: FnOnce() -> io::Result<usize> + Send + 'static>(f: F) -> Result<io::Result<usize>, ()> {
    let (tx, rx) = mpsc::channel();
    thread::spawn(move || { let _ = tx.send(f()); });
    rx.recv_timeout(Duration::from_secs(5)).map_err(|_| ())
}

fn main() {
    let mut bad = 0;
    let mut report = |label: &str, r: Result<io::Result<usize>, ()>, expected: usize| {
        match r {
            Ok(Ok(n)) if n == expected => println!("{label}: ok ({n} records)"),
            Ok(Ok(n)) => { println!("{label}: {n} records instead of {expected}"); bad += 1; }
            Ok(Err(e)) => { println!("{label}: error {:?} ({e})", e.kind()); bad += 1; }
            Err(()) => { println!("{label}: DOES NOT TERMINATE"); bad += 1; }
        }
    };
    const FASTA2: &[u8] = b">sq0\nACGTACGTACGTACGTACGTACGT\nACGTACGTACGTACGTACGTACGT\n>sq1\nACGT\n";
    const FASTQ: &[u8] = b"@a-read-name-that-is-longer-than-one-buffer-of-sixteen-bytes description\nACGTACGTACGTACGTACGT\n+a-read-name-that-is-longer-than-one-buffer-of-sixteen-bytes\nIIIIIIIIIIIIIIIIIIII\n@r1\nACGT\n+\nIIII\n";
    for every in [2usize, 3, 4, 5, 7] {
        report(&format!("fastq (Interrupted every {every} reads)"), with_watchdog(move || { let mut r = noodles_fastq::io::Reader::new(src(FASTQ, every)); let mut n = 0; for rec in r.records() { rec?; n += 1; } Ok(n) }), 2);
    }
    report("fasta index", with_watchdog(|| { let mut ix = noodles_fasta::io::Indexer::new(src(FASTA2, 4)); let mut n = 0; while let Some(_) = ix.index_record().map_err(io::Error::other)? { n += 1; } Ok(n) }), 2);
    const SAM: &[u8] = b"@HD\tVN:1.6\nr0\t4\t*\t0\t255\t*\t*\t0\t0\tACGTACGTACGTACGT\tIIIIIIIIIIIIIIII\tNH:i:1\nr1\t4\t*\t0\t255\t*\t*\t0\t0\tACGT\tIIII\n";
    report("sam (lazy records)", with_watchdog(|| { let mut r = noodles_sam::io::Reader::new(src(SAM, 3)); r.read_header()?; let mut n = 0; let mut rec = noodles_sam::Record::default(); while r.read_record(&mut rec)? != 0 { n += 1; } Ok(n) }), 2);
    const VCF: &[u8] = b"##fileformat=VCFv4.3\n#CHROM\tPOS\tID\tREF\tALT\tQUAL\tFILTER\tINFO\nsq0\t1\t.\tA\tC\t.\t.\tDP=100;AF=0.5;XX=abcdefghij\nsq0\t2\t.\tA\tC\t.\t.\t.\n";
    report("vcf (lazy records)", with_watchdog(|| { let mut r = noodles_vcf::io::Reader::new(src(VCF, 3)); r.read_header()?; let mut n = 0; let mut rec = noodles_vcf::Record::default(); while r.read_record(&mut rec)? != 0 { n += 1; } Ok(n) }), 2);
    const BED: &[u8] = b"sq0\t0\t1000000\nsq0\t2000000\t3000000\n";
    report("bed", with_watchdog(|| { let mut r = noodles_bed::io::Reader::<3, _>::new(src(BED, 3)); let mut n = 0; let mut rec = noodles_bed::Record::<3>::default(); while r.read_record(&mut rec)? != 0 { n += 1; } Ok(n) }), 2);
    const FASTA: &[u8] = b">sq0\nACGTACGTACGTACGTACGTACGT\nACGTACGTACGTACGTACGTACGT\n>sq1\nACGT\n";
    // (a source that is interrupted on exactly every 2nd or 3rd call resonates with the fill_buf calls of one sequence::Reader::read at
    // end of file, where BufReader re-reads on every call: std's read_to_end then retries for ever. Such schedules are an artefact of a
    // call counter, not of signals, and are left out.)
    for every in [4usize, 5, 7, 11] {
        report(&format!("fasta (Interrupted every {every} reads)"), with_watchdog(move || { let mut r = noodles_fasta::io::Reader::new(src(FASTA, every)); let mut n = 0; for rec in r.records() { rec?; n += 1; } Ok(n) }), 2);
    }
    // raw (uncompressed) BAM: the header's SAM text sub-reader discards to the end of l_text with its own fill_buf loop
    {
        use noodles_sam::alignment::io::Write as _;
        let header: noodles_sam::Header = "@HD\tVN:1.6\n@CO\tcomment comment comment comment comment comment\n".parse().unwrap();
        let mut w = noodles_bam::io::Writer::from(Vec::new());
        w.write_header(&header).unwrap();
        let rec = noodles_sam::alignment::RecordBuf::default();
        w.write_alignment_record(&header, &rec).unwrap();
        // pad the SAM text with 40 NULs (allowed: "l_text ... plain header text ... not necessarily NUL-terminated", htslib pads)
        let mut bytes = w.into_inner();
        let l_text = u32::from_le_bytes(bytes[4..8].try_into().unwrap()) as usize;
        let at = 8 + l_text;
        bytes.splice(at..at, std::iter::repeat(0u8).take(40));
        bytes[4..8].copy_from_slice(&((l_text + 40) as u32).to_le_bytes());
        let raw: &'static [u8] = Box::leak(bytes.into_boxed_slice());
        let trigger = at + 20;
        report("raw bam (one Interrupted inside the NUL padding of the header text)", with_watchdog(move || {
            let mut r = noodles_bam::io::Reader::from(BufReader::with_capacity(16, InterruptAt { inner: raw, pos: 0, trigger, fired: false }));
            r.read_header()?; let mut n = 0; let mut rec = noodles_bam::Record::default(); while r.read_record(&mut rec)? != 0 { n += 1; } Ok(n) }), 1);
    }
    // the same stream through a source that hands out ONE byte per read and is interrupted on every 3rd call: now the header
    // sub-reader's own BufReader cannot slurp the whole text at once and discard_to_end has to read (round-8 sub-agent's schedule)
    {
        struct OneByte<R> { inner: R, calls: usize }
        impl<R: Read> Read for OneByte<R> {
            fn read(&mut self, buf: &mut [u8]) -> io::Result<usize> {
                self.calls += 1;
                if self.calls % 3 == 0 { return Err(io::Error::from(io::ErrorKind::Interrupted)); }
                let n = buf.len().min(1);
                self.inner.read(&mut buf[..n])
            }
        }
        use noodles_sam::alignment::io::Write as _;
        let header: noodles_sam::Header = "@HD\tVN:1.6\n@CO\tc\n".parse().unwrap();
        let mut w = noodles_bam::io::Writer::from(Vec::new());
        w.write_header(&header).unwrap();
        let mut bytes = w.into_inner();
        let l_text = u32::from_le_bytes(bytes[4..8].try_into().unwrap()) as usize;
        let at = 8 + l_text;
        bytes.splice(at..at, std::iter::repeat(0u8).take(8));
        bytes[4..8].copy_from_slice(&((l_text + 8) as u32).to_le_bytes());
        let raw: &'static [u8] = Box::leak(bytes.into_boxed_slice());
        report("raw bam header (1-byte reads, Interrupted every 3rd call, 8 NULs of padding)", with_watchdog(move || {
            let mut r = noodles_bam::io::Reader::from(OneByte { inner: raw, calls: 0 });
            r.read_header()?; Ok(0) }), 0);
    }
    if bad > 0 { println!("VIOLATED: {bad} readers do not deliver the records when the source is interrupted now and then"); std::process::exit(1); }
    println!("holds");
}
