//! F1 (C02): seeking a BGZF reader to the end-of-file virtual position it reported itself leaves the previously
//! loaded block in place; the next read serves that stale block again (sync reader and multithreaded reader).
use std::io::{self, Cursor, Read, Write};

use noodles_bgzf::{self as bgzf, io::Seek as _};

fn main() -> io::Result<()> {
    let mut w = bgzf::io::Writer::new(Vec::new());
    w.write_all(b"noodles")?;
    let data = w.finish()?;

    let mut r = bgzf::io::Reader::new(Cursor::new(data.clone()));
    let mut all = Vec::new();
    r.read_to_end(&mut all)?;
    let eof = r.virtual_position();
    r.seek(bgzf::VirtualPosition::from(0))?;
    let mut two = [0u8; 2];
    r.read_exact(&mut two)?;
    r.seek(eof)?;
    let mut rest = Vec::new();
    r.read_to_end(&mut rest)?;
    println!("sync: eof={:?} bytes after seek(eof) = {:?} (expected none), vpos={:?}", eof, String::from_utf8_lossy(&rest), r.virtual_position());
    let bad_sync = !rest.is_empty();

    let mut r = bgzf::io::MultithreadedReader::new(Cursor::new(data));
    let mut all = Vec::new();
    r.read_to_end(&mut all)?;
    let eof = bgzf::io::Read::virtual_position(&r);
    r.seek_to_virtual_position(bgzf::VirtualPosition::from(0))?;
    r.read_exact(&mut two)?;
    r.seek_to_virtual_position(eof)?;
    let mut rest = Vec::new();
    r.read_to_end(&mut rest)?;
    println!("mt:   eof={:?} bytes after seek(eof) = {:?} (expected none)", eof, String::from_utf8_lossy(&rest));
    if bad_sync || !rest.is_empty() {
        println!("DEFECT REPRODUCED");
        std::process::exit(1);
    }
    println!("ok");
    Ok(())
}
