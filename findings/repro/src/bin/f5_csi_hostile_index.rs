//! F5/CSI (C15): an index whose contents are arbitrary makes reading or querying panic.
//!  (a) a bin id larger than the geometry's maximum  -> `region_bins[id]` (BitVec index) panics in query()
//!  (b) depth = 11 in the file header                  -> `bin_limit` assert!(depth <= 10) panics in read_index()
//!  (c) min_shift = 0 in the file header               -> `max_position` assert!(min_shift > 0) panics in query()
use std::io::{self, Write};

use noodles_bgzf as bgzf;
use noodles_core::Position;
use noodles_csi::{self as csi, BinningIndex};

fn raw_csi(min_shift: i32, depth: i32, bin_id: u32) -> io::Result<Vec<u8>> {
    let mut w = bgzf::io::Writer::new(Vec::new());
    w.write_all(b"CSI\x01")?;
    w.write_all(&min_shift.to_le_bytes())?;
    w.write_all(&depth.to_le_bytes())?;
    w.write_all(&0i32.to_le_bytes())?; // l_aux
    w.write_all(&1i32.to_le_bytes())?; // n_ref
    w.write_all(&1i32.to_le_bytes())?; // n_bin
    w.write_all(&bin_id.to_le_bytes())?; // bin
    w.write_all(&0u64.to_le_bytes())?; // loffset
    w.write_all(&1i32.to_le_bytes())?; // n_chunk
    w.write_all(&0u64.to_le_bytes())?;
    w.write_all(&1u64.to_le_bytes())?;
    w.finish()
}

fn attempt(name: &str, min_shift: i32, depth: i32, bin_id: u32) -> bool {
    let data = raw_csi(min_shift, depth, bin_id).unwrap();
    let r = std::panic::catch_unwind(move || {
        let mut reader = csi::io::Reader::new(&data[..]);
        let index = match reader.read_index() {
            Ok(i) => i,
            Err(e) => return format!("read_index -> Err({e})"),
        };
        let start = Position::try_from(1).unwrap();
        let end = Position::try_from(100).unwrap();
        match index.query(0, (start..=end).into()) {
            Ok(c) => format!("query -> Ok({} chunks)", c.len()),
            Err(e) => format!("query -> Err({e})"),
        }
    });
    match r {
        Ok(s) => {
            println!("{name}: {s}");
            false
        }
        Err(_) => {
            println!("{name}: PANIC");
            true
        }
    }
}

fn main() {
    std::panic::set_hook(Box::new(|_| {}));
    let a = attempt("(a) bin id 99999, depth 5", 14, 5, 99999);
    let b = attempt("(b) depth 11", 14, 11, 1);
    let c = attempt("(c) min_shift 0", 0, 5, 1);
    if a || b || c {
        println!("DEFECT REPRODUCED");
        std::process::exit(1);
    }
}
