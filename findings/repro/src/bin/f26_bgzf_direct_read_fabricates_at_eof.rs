//! F26 (C13, C01): `bgzf::io::Reader::read` with a destination of at least 64 KiB takes the direct-read path
//! (read_block_into_buf). At the end of a stream that has no EOF block (a file cut at a block boundary), no frame is read but
//! `read_nonempty_block_with` still returns the PREVIOUS block's data length: `read` reports that many bytes without writing
//! them, on every call, forever — bytes are fabricated and EOF is never reported.
use std::io::{self, Read, Write};

use noodles_bgzf as bgzf;

fn main() -> io::Result<()> {
    let mut writer = bgzf::io::Writer::new(Vec::new());
    writer.write_all(&vec![b'n'; 1000])?;
    let mut data = writer.finish()?;
    data.truncate(data.len() - 28); // cut at the block boundary: drop the EOF block
    let mut reader = bgzf::io::Reader::new(&data[..]);
    let mut buf = vec![0u8; 1 << 16];
    let mut total = 0usize;
    for call in 1..=5 {
        buf.fill(0xEE);
        let n = reader.read(&mut buf)?;
        let written = buf[..n].iter().filter(|&&b| b != 0xEE).count();
        println!("read #{call}: returned {n}, bytes actually written into the buffer: {written}");
        total += n;
        if n == 0 {
            break;
        }
    }
    if total != 1000 {
        println!("DEFECT: 1000 bytes were written, the reader reported {total} (and never reports end of file)");
        std::process::exit(1);
    }
    println!("ok: 1000 bytes, then end of file");
    Ok(())
}
