//! F4 (C17): the CSI writer stores, for each bin, the minimum loffset over a prefix of its ancestor chain
//! (first_record_start_position) while the reader stores the file's value verbatim, so read(write(index)) != index.
use std::io;

use noodles_bgzf as bgzf;
use noodles_core::Position;
use noodles_csi::{
    self as csi,
    binning_index::{Indexer, index::reference_sequence::{bin::Chunk, index::BinnedIndex}},
    BinningIndex,
};

fn pos(n: usize) -> Position { Position::try_from(n).unwrap() }
fn vp(n: u64) -> bgzf::VirtualPosition { bgzf::VirtualPosition::from(n) }

fn main() -> io::Result<()> {
    // [16000,17000] crosses a 16 KiB window boundary -> stored in the 128 KiB parent bin; [16500,16510] is in a leaf bin
    // whose parent is that bin.
    let records = [(16_000, 17_000, 100u64, 200u64), (16_500, 16_510, 5000, 5100)];
    let mut indexer = Indexer::<BinnedIndex>::new(14, 5);
    for (s, e, b, en) in records {
        indexer.add_record(Some((0, pos(s), pos(e), true)), Chunk::new(vp(b), vp(en)))?;
    }
    let index = indexer.build(1);
    let mut w = csi::io::Writer::new(Vec::new());
    w.write_index(&index)?;
    let data = w.into_inner().finish()?;
    let back = csi::io::Reader::new(&data[..]).read_index()?;
    let a = format!("{:?}", index.reference_sequences()[0].index());
    let b = format!("{:?}", back.reference_sequences()[0].index());
    println!("in memory : {a}\nafter w+r : {b}");
    if a != b {
        println!("DEFECT REPRODUCED (F4): read(write(index)) != index");
        std::process::exit(1);
    }
    Ok(())
}
