//! F20 (C14, C20): noodles-util's sync generic VARIANT writer has `write_header` and `write_record` but no `finish`/`flush` (the
//! alignment writer has `finish`). Every arm buffers (BufWriter or the BGZF staging buffer), and the buffered tail is only
//! written when the writer is dropped, where a destination failure is swallowed: every call on the writer returns Ok and the
//! destination holds no complete file, with no error reported anywhere.
use std::io::{self, Write};

use noodles_util::variant::{self, io::{CompressionMethod, Format}};
use noodles_vcf::{self as vcf, variant::RecordBuf};

struct Failing;

impl Write for Failing {
    fn write(&mut self, _: &[u8]) -> io::Result<usize> {
        Err(io::Error::other("disk full"))
    }
    fn flush(&mut self) -> io::Result<()> {
        Err(io::Error::other("disk full"))
    }
}

fn main() -> io::Result<()> {
    let header = vcf::Header::builder()
        .add_contig("sq0", vcf::header::record::value::Map::<vcf::header::record::value::map::Contig>::new())
        .build();
    let record = RecordBuf::builder()
        .set_reference_sequence_name("sq0")
        .set_variant_start(noodles_core::Position::MIN)
        .set_reference_bases("A")
        .build();
    let mut hidden = 0;
    for (format, compression) in [
        (Format::Vcf, None),
        (Format::Vcf, Some(CompressionMethod::Bgzf)),
        (Format::Bcf, None),
        (Format::Bcf, Some(CompressionMethod::Bgzf)),
    ] {
        let result = (|| -> io::Result<()> {
            let mut writer = variant::io::writer::Builder::default()
                .set_format(format)
                .set_compression_method(compression)
                .build_from_writer(Failing);
            writer.write_header(&header)?;
            writer.write_record(&header, &record)?;
            // NO_FINISH=1 shows the behaviour before the fix, when no finishing call existed
            if std::env::var_os("NO_FINISH").is_none() {
                writer.finish()?;
            }
            Ok(())
        })();
        println!("{format:?} {compression:?}: {result:?}");
        if result.is_ok() {
            hidden += 1;
        }
    }
    if hidden > 0 {
        println!("DEFECT: a destination that fails every write is never reported in {hidden} of 4 configurations");
        std::process::exit(1);
    }
    println!("ok: the destination failure is returned by a call on the writer");
    Ok(())
}
