//! F50 (C14): `sam::io::writer::Builder::build_from_writer` wraps the destination in a `BufWriter` (or a BGZF writer), and
//! `alignment::io::Write::finish` of the SAM writer was a no-op: header, record and finish all returned Ok on a destination whose
//! every write fails; the failure was only met in the buffer's Drop, where it is swallowed.
use std::io::{self, Write};

use noodles_sam::{self as sam, alignment::io::Write as _};

struct Failing(usize);
impl Write for Failing {
    fn write(&mut self, _: &[u8]) -> io::Result<usize> { self.0 += 1; Err(io::Error::new(io::ErrorKind::StorageFull, "disk full")) }
    fn flush(&mut self) -> io::Result<()> { Ok(()) }
}

fn main() {
    let mut calls = Failing(0);
    let header = sam::Header::builder().add_comment("noodles").build();
    let record = sam::alignment::RecordBuf::default();
    let reported;
    {
        let mut writer = sam::io::writer::Builder::default().build_from_writer(&mut calls);
        let a = writer.write_alignment_header(&header);
        let b = writer.write_alignment_record(&header, &record);
        let c = writer.finish(&header);
        println!("write_alignment_header: {a:?}\nwrite_alignment_record: {b:?}\nfinish: {c:?}");
        reported = a.is_err() || b.is_err() || c.is_err();
    }
    println!("destination write calls (all failed): {}", calls.0);
    if !reported {
        println!("VIOLATED: every call including finish returned Ok although nothing reached the destination");
        std::process::exit(1);
    }
    println!("holds");
}
