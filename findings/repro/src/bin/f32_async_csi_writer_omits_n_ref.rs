//! F32 (C17, C16): the async CSI writer does not write the reference sequence count (n_ref): every CSI index written with
//! `csi::r#async::io::Writer` is 4 bytes short and cannot be read back ("invalid reference sequences"), also by noodles' own reader.
use std::io;

use noodles_bgzf as bgzf;
use noodles_csi::{self as csi, binning_index::{Indexer, index::reference_sequence::{bin::Chunk, index::BinnedIndex}}};
use noodles_core::Position;

#[tokio::main(flavor = "current_thread")]
async fn main() -> io::Result<()> {
    let mut indexer = Indexer::<BinnedIndex>::new(14, 5);
    for i in 0..10u64 {
        let start = Position::try_from(1 + (i as usize) * 1000).unwrap();
        let end = Position::try_from(500 + (i as usize) * 1000).unwrap();
        let chunk = Chunk::new(bgzf::VirtualPosition::from(i * 100 << 16), bgzf::VirtualPosition::from((i + 1) * 100 << 16));
        indexer.add_record(Some((0, start, end, true)), chunk)?;
    }
    let index = indexer.build(2);

    let mut sync_writer = csi::io::Writer::new(Vec::new());
    sync_writer.write_index(&index)?;
    let sync_bytes = decompress(&sync_writer.into_inner().finish()?)?;

    let mut async_writer = csi::r#async::io::Writer::new(Vec::new());
    async_writer.write_index(&index).await?;
    async_writer.shutdown().await?;
    let async_file: Vec<u8> = async_writer.into_inner().into_inner();
    let async_bytes = decompress(&async_file)?;

    println!("sync  writer: {} bytes (uncompressed)", sync_bytes.len());
    println!("async writer: {} bytes (uncompressed)", async_bytes.len());

    let mut reader = csi::io::Reader::new(&async_file[..]);
    match reader.read_index() {
        Ok(back) if back == index => println!("async-written index reads back equal"),
        Ok(_) => { println!("VIOLATED: the async-written index reads back different"); std::process::exit(1); }
        Err(e) => { println!("VIOLATED: the async-written index does not read back: {e}"); std::process::exit(1); }
    }
    if sync_bytes != async_bytes {
        println!("VIOLATED: async and sync writers emit different bytes");
        std::process::exit(1);
    }
    println!("holds");
    Ok(())
}

fn decompress(src: &[u8]) -> io::Result<Vec<u8>> {
    use std::io::Read;
    let mut r = bgzf::io::Reader::new(src);
    let mut out = Vec::new();
    r.read_to_end(&mut out)?;
    Ok(out)
}
