//! F42 (C02, C16): the async BGZF reader's seek (async fn seek and poll_seek) — the twin of the sync seek repaired as F1/F2 —
//! (a) accepts an in-block offset beyond the block's data: seek((0, 9)) on a 7-byte block succeeds and reading continues in the NEXT
//! block, where the sync reader reports InvalidInput; (b) after a seek to the end of a stream without EOF block reports the virtual
//! position (0, 0) instead of the position sought.
use std::io::{Cursor, Write};

use noodles_bgzf::{self as bgzf, io::Seek as _};
use tokio::io::AsyncReadExt;

fn block(data: &[u8]) -> Vec<u8> {
    let mut w = bgzf::io::Writer::new(Vec::new());
    w.write_all(data).unwrap();
    let mut v = w.finish().unwrap();
    v.truncate(v.len() - 28); // drop the EOF block
    v
}

#[tokio::main(flavor = "current_thread")]
async fn main() -> std::io::Result<()> {
    let mut bad = 0;
    let b0 = block(b"noodles");
    let b1 = block(b"bgzf");
    let mut file = b0.clone();
    file.extend(&b1);

    // (a) offset beyond the block
    let target = bgzf::VirtualPosition::try_from((0u64, 9u16)).unwrap();
    let mut sync_reader = bgzf::io::Reader::new(Cursor::new(file.clone()));
    let sync_result = sync_reader.seek_to_virtual_position(target);
    let mut async_reader = bgzf::r#async::io::Reader::new(Cursor::new(file.clone()));
    let async_result = async_reader.seek(target).await;
    let mut rest = Vec::new();
    if async_result.is_ok() { async_reader.read_to_end(&mut rest).await?; }
    println!("seek((0, 9)) into a 7-byte block: sync {:?}; async {:?}, then reads {:?}", sync_result.as_ref().map(|_| ()).map_err(|e| e.kind()), async_result.as_ref().map(|_| ()).map_err(|e| e.kind()), String::from_utf8_lossy(&rest));
    if sync_result.is_err() != async_result.is_err() { bad += 1; }

    // (b) seek to the end of a stream without EOF block
    let end = bgzf::VirtualPosition::try_from((file.len() as u64, 0u16)).unwrap();
    let mut sync_reader = bgzf::io::Reader::new(Cursor::new(file.clone()));
    sync_reader.seek_to_virtual_position(end)?;
    let mut async_reader = bgzf::r#async::io::Reader::new(Cursor::new(file.clone()));
    async_reader.seek(end).await?;
    println!("seek(({}, 0)) = end of stream: sync reports {:?}, async reports {:?}", file.len(), <(u64, u16)>::from(sync_reader.virtual_position()), <(u64, u16)>::from(async_reader.virtual_position()));
    if sync_reader.virtual_position() != async_reader.virtual_position() { bad += 1; }

    if bad > 0 { println!("VIOLATED: {bad} of 2 seek cases differ from the sync reader"); std::process::exit(1); }
    println!("holds");
    Ok(())
}
