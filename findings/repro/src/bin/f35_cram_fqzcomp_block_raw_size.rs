//! F35 (C07): a quality-score block compressed with fqzcomp declares the COMPRESSED length as its raw (uncompressed) size:
//! "declared raw sizes" of the container format are wrong for every such block (noodles' own reader ignores the field for fqzcomp).
use std::io;

use noodles_cram::{self as cram, codecs::Encoder, container::{BlockContentEncoderMap, compression_header::data_series_encodings::DataSeries}};
use noodles_sam::{self as sam, alignment::{io::Write as _, record::Flags, record_buf::{QualityScores, Sequence}, RecordBuf}};

fn itf8(src: &[u8]) -> (usize, usize) {
    let b = src[0];
    if b & 0x80 == 0 { (usize::from(b), 1) }
    else if b & 0x40 == 0 { ((usize::from(b & 0x7f) << 8) | usize::from(src[1]), 2) }
    else if b & 0x20 == 0 { ((usize::from(b & 0x3f) << 16) | (usize::from(src[1]) << 8) | usize::from(src[2]), 3) }
    else { panic!("value too large for this scan") }
}

fn main() -> io::Result<()> {
    let header = sam::Header::default();
    let map = BlockContentEncoderMap::builder().set_data_series_encoder(DataSeries::QualityScores, Some(Encoder::Fqzcomp)).build();
    let mut writer = cram::io::writer::Builder::default().set_block_content_encoder_map(map).build_from_writer(Vec::new());
    writer.write_header(&header)?;
    let (n, l) = (40usize, 50usize);
    for i in 0..n {
        let seq: Vec<u8> = (0..l).map(|j| b"ACGT"[(i * 7 + j * 3) % 4]).collect();
        let qual: Vec<u8> = (0..l).map(|j| ((i * 31 + j * j * 17) % 42) as u8).collect();
        let record = RecordBuf::builder().set_name(format!("r{i}")).set_flags(Flags::UNMAPPED)
            .set_sequence(Sequence::from(seq)).set_quality_scores(QualityScores::from(qual)).build();
        writer.write_alignment_record(&header, &record)?;
    }
    writer.try_finish(&header)?;
    let data = writer.get_ref().clone();

    // block header: method (7 = fqzcomp), content type (4 = external), content id (28 = QS), compressed size, raw size
    let mut found = false;
    for i in 0..data.len().saturating_sub(8) {
        if data[i] == 7 && data[i + 1] == 4 && data[i + 2] == 28 {
            let (compressed, a) = itf8(&data[i + 3..]);
            let (raw, _) = itf8(&data[i + 3 + a..]);
            println!("fqzcomp QS block: compressed size {compressed}, declared raw size {raw}, actual raw size {}", n * l);
            found = true;
            if raw != n * l {
                println!("VIOLATED: the declared raw size is not the size of the uncompressed data");
                std::process::exit(1);
            }
        }
    }
    if !found { println!("fqzcomp block not found"); std::process::exit(2); }
    println!("holds");
    Ok(())
}
