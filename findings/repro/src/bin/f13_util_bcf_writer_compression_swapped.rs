//! F13 (C20): the generic variant writer builder has its two BCF arms swapped: (Bcf, None) builds a bgzf-compressed
//! BCF writer and (Bcf, Some(Bgzf)) — the default for BCF — builds an UNCOMPRESSED one.
use std::io;

use noodles_util::variant::{self, io::{CompressionMethod, Format}};
use noodles_vcf as vcf;

fn produce(cm: Option<Option<CompressionMethod>>) -> io::Result<Vec<u8>> {
    let mut out = Vec::new();
    {
        let mut b = variant::io::writer::Builder::default().set_format(Format::Bcf);
        if let Some(cm) = cm {
            b = b.set_compression_method(cm);
        }
        let mut w = b.build_from_writer(&mut out);
        w.write_header(&vcf::Header::default())?;
    }
    Ok(out)
}

fn main() -> io::Result<()> {
    let default = produce(None)?;
    let bgzf = produce(Some(Some(CompressionMethod::Bgzf)))?;
    let none = produce(Some(None))?;
    let is_gz = |b: &[u8]| b.starts_with(&[0x1f, 0x8b]);
    println!("BCF, compression unset (default = bgzf): starts with gzip magic: {}", is_gz(&default));
    println!("BCF, compression = Some(Bgzf)           : starts with gzip magic: {}", is_gz(&bgzf));
    println!("BCF, compression = None                 : starts with gzip magic: {}", is_gz(&none));
    if !is_gz(&bgzf) || is_gz(&none) {
        println!("DEFECT REPRODUCED (F13): the compression actually applied is the opposite of the one requested");
        std::process::exit(1);
    }
    Ok(())
}
