//! F12 (C19): the CRAM region query filters the decoded records by interval only (`intersects(&record, interval)`),
//! never by reference sequence. A coordinate-sorted CRAM written by noodles with two references puts both in one
//! multi-reference slice; the CRAI has one entry per reference; the query for sq0 loads the slice and also yields the
//! sq1 record that happens to cover the same coordinates.
use std::{io, num::NonZero};

use noodles_core::Position;
use noodles_cram as cram;
use noodles_fasta as fasta;
use noodles_sam::{
    self as sam,
    alignment::{io::Write as _, record::{cigar::{op::Kind, Op}, Flags}, record_buf::{Cigar, Sequence, QualityScores}, RecordBuf},
    header::record::value::{Map, map::ReferenceSequence},
};

fn rec(name: &str, rid: usize, start: usize) -> RecordBuf {
    RecordBuf::builder()
        .set_name(name)
        .set_flags(Flags::empty())
        .set_reference_sequence_id(rid)
        .set_alignment_start(Position::try_from(start).unwrap())
        .set_cigar([Op::new(Kind::Match, 4)].into_iter().collect::<Cigar>())
        .set_sequence(Sequence::from(b"ACGT"))
        .set_quality_scores(QualityScores::from(vec![30, 30, 30, 30]))
        .build()
}

fn main() -> io::Result<()> {
    let seq = vec![b'A'; 1000];
    let records = vec![
        fasta::Record::new(fasta::record::Definition::new("sq0", None), fasta::record::Sequence::from(seq.clone())),
        fasta::Record::new(fasta::record::Definition::new("sq1", None), fasta::record::Sequence::from(seq)),
    ];
    let repository = fasta::Repository::new(records);
    let header = sam::Header::builder()
        .add_reference_sequence("sq0", Map::<ReferenceSequence>::new(NonZero::new(1000).unwrap()))
        .add_reference_sequence("sq1", Map::<ReferenceSequence>::new(NonZero::new(1000).unwrap()))
        .build();
    let path = std::env::temp_dir().join("f12.cram");
    {
        let mut w = cram::io::writer::Builder::default()
            .set_reference_sequence_repository(repository.clone())
            .build_from_path(&path)?;
        w.write_header(&header)?;
        w.write_alignment_record(&header, &rec("on_sq0", 0, 100))?;
        w.write_alignment_record(&header, &rec("on_sq1", 1, 100))?;
        w.try_finish(&header)?;
    }
    // (1) building the CRAI index of this noodles-written file fails: fs::index decodes multi-reference slices with an
    //     empty reference repository (a TODO in the source). Before fix 393a12a this was a panic, now it is an error.
    match cram::fs::index(&path) {
        Ok(_) => println!("cram::fs::index: Ok"),
        Err(e) => println!("cram::fs::index: Err({e})  <- DEFECT (F12a): the index of a noodles-written CRAM cannot be built"),
    }
    // (2) build the two CRAI entries by hand (one per reference of the multi-reference slice) and query
    let index = {
        let mut r = cram::io::Reader::new(std::fs::File::open(&path)?);
        r.read_header()?;
        let offset = r.position()?;
        let mut container = cram::io::reader::Container::default();
        let len = r.read_container(&mut container)?;
        let landmark = container.header().landmarks()[0];
        let slice_len = (len - landmark) as u64;
        let p100 = Position::try_from(100).ok();
        vec![
            cram::crai::Record::new(Some(0), p100, 4, offset, landmark as u64, slice_len),
            cram::crai::Record::new(Some(1), p100, 4, offset, landmark as u64, slice_len),
        ]
    };
    println!("crai entries: {:?}", index.iter().map(|r| (r.reference_sequence_id(), r.alignment_start().map(usize::from), r.offset(), r.landmark())).collect::<Vec<_>>());
    let mut reader = cram::io::reader::Builder::default()
        .set_reference_sequence_repository(repository)
        .build_from_path(&path)?;
    let h = reader.read_header()?;
    let region = "sq0:100-103".parse().unwrap();
    let names: Vec<String> = reader
        .query(&h, &index, &region)?
        .records()
        .map(|r| r.map(|r| r.name().map(|n| n.to_string()).unwrap_or_default()))
        .collect::<io::Result<_>>()?;
    println!("query sq0:100-103 -> {names:?}");
    std::fs::remove_file(&path).ok();
    if names != ["on_sq0"] {
        println!("DEFECT REPRODUCED (F12b): a record of another reference is returned");
        std::process::exit(1);
    }
    Ok(())
}
