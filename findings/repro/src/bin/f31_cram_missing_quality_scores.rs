//! F31 (C07): records without quality scores (QUAL *) or without bases (SEQ *) and the CRAM writer: the writer sets the
//! quality-score-array flag unconditionally, writes no score bytes, and the reader cannot decode the file (missing external block 28 /
//! unexpected end of file); a mapped record with SEQ * (or a 1-base op with QUAL *) panics inside the writer.
use std::io;

use noodles_cram as cram;
use noodles_core::Position;
use noodles_sam::{
    self as sam,
    alignment::{io::Write as _, record::Flags, record::cigar::{op::Kind, Op}, record_buf::{Cigar, QualityScores, Sequence}, RecordBuf},
    header::record::value::{map::ReferenceSequence, Map},
};
use noodles_fasta as fasta;

fn round_trip(label: &str, records: &[RecordBuf], with_ref: bool) -> io::Result<()> {
    let reference: Vec<u8> = (0..1000).map(|i| b"ACGT"[(i * 7 + i / 3) % 4]).collect();
    let header = sam::Header::builder()
        .add_reference_sequence("sq0", Map::<ReferenceSequence>::new(std::num::NonZero::new(1000).unwrap()))
        .build();
    let _ = with_ref;
    let repo = if true {
        fasta::Repository::new(vec![fasta::Record::new(fasta::record::Definition::new("sq0", None), fasta::record::Sequence::from(reference.clone()))])
    } else { fasta::Repository::default() };
    let mut writer = cram::io::writer::Builder::default().set_reference_sequence_repository(repo.clone()).build_from_writer(Vec::new());
    writer.write_header(&header)?;
    for r in records { writer.write_alignment_record(&header, r)?; }
    writer.try_finish(&header)?;
    eprintln!("  [{label}: written]");
    let data = writer.get_ref().clone();
    let mut reader = cram::io::reader::Builder::default().set_reference_sequence_repository(repo).build_from_reader(&data[..]);
    let h = reader.read_header()?;
    let mut out = Vec::new();
    for r in reader.records(&h) {
        let r = r?;
        out.push(RecordBuf::try_from_alignment_record(&h, &r)?);
    }
    if out.len() != records.len() { return Err(io::Error::other(format!("{label}: wrote {} read {}", records.len(), out.len()))); }
    for (a, b) in records.iter().zip(&out) {
        if a.sequence() != b.sequence() || a.quality_scores() != b.quality_scores() || a.cigar() != b.cigar() || a.alignment_start() != b.alignment_start() {
            return Err(io::Error::other(format!("{label}: mismatch\n  wrote {:?} {:?}\n  read  {:?} {:?}", a.sequence(), a.quality_scores(), b.sequence(), b.quality_scores())));
        }
    }
    Ok(())
}

fn main() {
    std::panic::set_hook(Box::new(|i| { eprintln!("  panic at {}", i.location().map(|l| l.to_string()).unwrap_or_default()); }));
    let mk = |mapped: bool, seq: Option<&[u8]>, qual: Option<&[u8]>| {
        let mut b = RecordBuf::builder().set_name("r0");
        if mapped {
            b = b.set_flags(Flags::empty()).set_reference_sequence_id(0).set_alignment_start(Position::try_from(10).unwrap())
                .set_cigar(Cigar::from(vec![Op::new(Kind::Match, 8)])).set_mapping_quality(sam::alignment::record::MappingQuality::new(30).unwrap());
        } else {
            b = b.set_flags(Flags::UNMAPPED);
        }
        if let Some(s) = seq { b = b.set_sequence(Sequence::from(s.to_vec())); }
        if let Some(q) = qual { b = b.set_quality_scores(QualityScores::from(q.to_vec())); }
        b.build()
    };
    let refseq: Vec<u8> = (0..1000).map(|i| b"ACGT"[(i * 7 + i / 3) % 4]).collect();
    let good: Vec<u8> = refseq[9..17].to_vec();
    let mut bad = good.clone(); bad[3] = if bad[3] == b'A' { b'C' } else { b'A' };
    let cases: Vec<(&str, Vec<RecordBuf>, bool)> = vec![
        ("unmapped seq+qual", vec![mk(false, Some(b"ACGTACGT"), Some(&[30; 8]))], false),
        ("unmapped seq, QUAL *", vec![mk(false, Some(b"ACGTACGT"), None)], false),
        ("unmapped SEQ *, QUAL *", vec![mk(false, None, None)], false),
        ("mapped seq+qual (ref)", vec![mk(true, Some(&good), Some(&[30; 8]))], true),
        ("mapped seq, QUAL * (ref)", vec![mk(true, Some(&good), None)], true),
        ("mapped mismatch, QUAL * (ref)", vec![mk(true, Some(&bad), None)], true),
        ("mapped SEQ *, QUAL * (ref)", vec![mk(true, None, None)], true),
        ("mapped seq, QUAL * then seq+qual (ref)", vec![mk(true, Some(&good), None), mk(true, Some(&good), Some(&[30; 8]))], true),
        ("mapped seq+qual (no ref)", vec![mk(true, Some(&good), Some(&[30; 8]))], false),
        ("mapped seq, QUAL * (no ref)", vec![mk(true, Some(&good), None)], false),
    ];
    let mut failed = 0;
    for (label, recs, with_ref) in cases {
        let r = std::panic::catch_unwind(|| round_trip(label, &recs, with_ref));
        match r {
            Ok(Ok(())) => println!("ok    {label}"),
            Ok(Err(e)) => { failed += 1; println!("FAIL  {label}: {e}"); }
            Err(p) => { failed += 1; println!("PANIC {label}: {}", p.downcast_ref::<String>().cloned().or_else(|| p.downcast_ref::<&str>().map(|s| s.to_string())).unwrap_or_default()); }
        }
    }
    std::process::exit(if failed > 0 { 1 } else { 0 });
}
