//! F54 (C15): the lazy VCF genotype parser used a character count (`chars().position()`) as a byte index: a GT value that starts
//! with a multi-byte character (`é/1`) panicked with "byte index 1 is not a char boundary" when the lazy record was converted.
use std::io;

use noodles_vcf::{self as vcf, variant::RecordBuf};

fn main() -> io::Result<()> {
    let text = "##fileformat=VCFv4.3\n##FORMAT=<ID=GT,Number=1,Type=String,Description=\"Genotype\">\n#CHROM\tPOS\tID\tREF\tALT\tQUAL\tFILTER\tINFO\tFORMAT\ts0\nsq0\t1\t.\tA\t.\t.\t.\t.\tGT\t\u{e9}/1\n";
    let mut reader = vcf::io::Reader::new(text.as_bytes());
    let header = reader.read_header()?;
    let mut lazy = vcf::Record::default();
    reader.read_record(&mut lazy)?;
    let r = std::panic::catch_unwind(|| RecordBuf::try_from_variant_record(&header, &lazy).map(|_| ()));
    let mut bad = false;
    match r {
        Ok(res) => println!("lazy conversion: {:?}", res.map_err(|e| e.kind())),
        Err(_) => { println!("VIOLATED: converting a lazy record whose GT starts with a multi-byte character panicked"); bad = true; }
    }
    // the eager parser (read_record_buf) has its own copy of next_allele
    let r = std::panic::catch_unwind(|| {
        let mut reader = vcf::io::Reader::new(text.as_bytes());
        let header = reader.read_header()?;
        let mut eager = RecordBuf::default();
        reader.read_record_buf(&header, &mut eager).map(|_| ())
    });
    match r {
        Ok(res) => println!("eager read: {:?}", res.map_err(|e| e.kind())),
        Err(_) => { println!("VIOLATED: read_record_buf panicked on a GT that starts with a multi-byte character"); bad = true; }
    }
    if bad { std::process::exit(1); }
    println!("holds (no panic)");
    Ok(())
}
