//! F5 (C15): the preservation map's RR flag ("external reference sequence is required") comes from the file. With RR = false
//! and no embedded reference the slice decoder hands out records without a reference sequence; a record whose features
//! need reference bases (a substitution) is returned as Ok and panics when its sequence is iterated
//! (`panic!("missing reference sequence (substitution)")` / `panic!("next: missing reference sequence")` in
//! record::sequence::Iter::next). This program writes a reference-compressed CRAM with noodles, flips RR to false (fixing up
//! the block CRC32; sizes do not change) and converts the records to RecordBuf, which iterates the sequence.
use std::{io, num::NonZero};

use noodles_core::Position;
use noodles_fasta as fasta;

use noodles_cram as cram;
use noodles_sam::{
    self as sam,
    alignment::{io::Write as _, record::{cigar::{op::Kind, Op}, Flags}, record_buf::{Cigar, QualityScores, Sequence}, RecordBuf},
    header::record::value::{Map, map::ReferenceSequence},
};

fn crc32(b: &[u8]) -> u32 {
    let mut c = flate2::Crc::new();
    c.update(b);
    c.sum()
}

fn read_itf8(b: &[u8], p: &mut usize) -> i32 {
    let b0 = b[*p] as u32;
    let (n, v) = if b0 < 0x80 {
        (1, b0)
    } else if b0 < 0xc0 {
        (2, ((b0 & 0x3f) << 8) | b[*p + 1] as u32)
    } else if b0 < 0xe0 {
        (3, ((b0 & 0x1f) << 16) | (b[*p + 1] as u32) << 8 | b[*p + 2] as u32)
    } else if b0 < 0xf0 {
        (4, ((b0 & 0x0f) << 24) | (b[*p + 1] as u32) << 16 | (b[*p + 2] as u32) << 8 | b[*p + 3] as u32)
    } else {
        (5, ((b0 & 0x0f) << 28) | (b[*p + 1] as u32) << 20 | (b[*p + 2] as u32) << 12 | (b[*p + 3] as u32) << 4 | (b[*p + 4] as u32 & 0x0f))
    };
    *p += n;
    v as i32
}

fn write_itf8(out: &mut Vec<u8>, v: i32) {
    let v = v as u32;
    if v < 0x80 {
        out.push(v as u8);
    } else if v < 0x4000 {
        out.extend([(v >> 8) as u8 | 0x80, v as u8]);
    } else if v < 0x20_0000 {
        out.extend([(v >> 16) as u8 | 0xc0, (v >> 8) as u8, v as u8]);
    } else if v < 0x1000_0000 {
        out.extend([(v >> 24) as u8 | 0xe0, (v >> 16) as u8, (v >> 8) as u8, v as u8]);
    } else {
        out.extend([(v >> 28) as u8 | 0xf0, (v >> 20) as u8, (v >> 12) as u8, (v >> 4) as u8, v as u8 & 0x0f]);
    }
}

fn skip_ltf8(b: &[u8], p: &mut usize) {
    let n = (b[*p]).leading_ones() as usize;
    *p += n + 1;
}

struct ContainerHeader {
    start: usize,
    len: i32,
    landmarks: Vec<i32>,
    fixed: Vec<u8>, // bytes between the length field and the landmarks array
    end: usize,     // first byte after the header CRC
}

fn parse_container_header(b: &[u8], start: usize) -> ContainerHeader {
    let len = i32::from_le_bytes(b[start..start + 4].try_into().unwrap());
    let mut p = start + 4;
    let f0 = p;
    for _ in 0..4 {
        read_itf8(b, &mut p); // ref id, start, span, n records
    }
    skip_ltf8(b, &mut p); // record counter
    skip_ltf8(b, &mut p); // bases
    read_itf8(b, &mut p); // n blocks
    let fixed = b[f0..p].to_vec();
    let n = read_itf8(b, &mut p);
    let landmarks = (0..n).map(|_| read_itf8(b, &mut p)).collect();
    ContainerHeader { start, len, landmarks, fixed, end: p + 4 }
}

fn main() -> io::Result<()> {
    let seq = vec![b'A'; 1000];
    let repository = fasta::Repository::new(vec![fasta::Record::new(
        fasta::record::Definition::new("sq0", None),
        fasta::record::Sequence::from(seq),
    )]);
    let header = sam::Header::builder()
        .add_reference_sequence("sq0", Map::<ReferenceSequence>::new(NonZero::new(1000).unwrap()))
        .build();
    let record = RecordBuf::builder()
        .set_name("r0")
        .set_flags(Flags::empty())
        .set_reference_sequence_id(0)
        .set_alignment_start(Position::try_from(10).unwrap())
        .set_cigar([Op::new(Kind::Match, 4)].into_iter().collect::<Cigar>())
        .set_sequence(Sequence::from(b"ACGT"))
        .set_quality_scores(QualityScores::from(vec![30, 30, 30, 30]))
        .build();
    let mut writer = cram::io::writer::Builder::default()
        .set_reference_sequence_repository(repository.clone())
        .build_from_writer(Vec::new());
    writer.write_header(&header)?;
    writer.write_alignment_record(&header, &record)?;
    writer.try_finish(&header)?;
    let src = writer.get_ref().clone();

    let hc = parse_container_header(&src, 26);
    let dc = parse_container_header(&src, hc.end + hc.len as usize);
    let bs = dc.end;
    assert_eq!((src[bs], src[bs + 1]), (0, 1), "expected a raw compression header block");
    let mut p = bs + 2;
    let _cid = read_itf8(&src, &mut p);
    let csize = read_itf8(&src, &mut p) as usize;
    let _usize = read_itf8(&src, &mut p);
    let data_start = p;
    let block_end = p + csize + 4;

    // preservation map: itf8(size) itf8(count) then (2-byte key, value) entries; RR is a one-byte boolean
    let data = &src[data_start..data_start + csize];
    let mut q = 0;
    let _pm_size = read_itf8(data, &mut q);
    let count = read_itf8(data, &mut q);
    let mut rr_at = None;
    for _ in 0..count {
        let key = [data[q], data[q + 1]];
        q += 2;
        match &key {
            b"RN" | b"AP" | b"RR" => {
                if &key == b"RR" {
                    rr_at = Some(q);
                }
                q += 1;
            }
            b"SM" => q += 5,
            b"TD" => {
                let n = read_itf8(data, &mut q) as usize;
                q += n;
            }
            _ => panic!("unexpected preservation map key {key:?}"),
        }
    }
    let rr_at = rr_at.expect("noodles writes RR");
    let mut hostile = src.clone();
    assert_eq!(hostile[data_start + rr_at], 1);
    hostile[data_start + rr_at] = 0;
    let c = crc32(&hostile[bs..block_end - 4]);
    hostile[block_end - 4..block_end].copy_from_slice(&c.to_le_bytes());

    let result = std::panic::catch_unwind(|| -> io::Result<usize> {
        let mut reader = cram::io::reader::Builder::default()
            .set_reference_sequence_repository(repository.clone())
            .build_from_reader(&hostile[..]);
        let header = reader.read_header()?;
        let mut n = 0;
        for r in reader.records(&header) {
            n += r?.sequence().as_ref().len();
        }
        Ok(n)
    });
    match result {
        Ok(Ok(n)) => println!("read {n} bases (?)"),
        Ok(Err(e)) => println!("ok: reported as an error: {e}"),
        Err(_) => {
            println!("DEFECT: a CRAM whose preservation map says RR=false but whose records carry substitutions makes the reader panic");
            std::process::exit(1)
        }
    }
    Ok(())
}
