//! F59 (C20): the generic alignment writer's own output for (SAM, BGZF, empty header, no records) — the 28-byte BGZF EOF block — was not
//! readable by the generic reader: detect_format read_exact()s four inflated bytes and failed with UnexpectedEof on the empty stream
//! (the uncompressed empty input is detected as SAM).
use std::io;

use noodles_sam as sam;
use noodles_util::alignment;

fn main() -> io::Result<()> {
    let header = sam::Header::default();
    let mut buf = Vec::new();
    {
        let mut writer = alignment::io::writer::Builder::default()
            .set_format(alignment::io::Format::Sam)
            .set_compression_method(Some(alignment::io::CompressionMethod::Bgzf))
            .build_from_writer(&mut buf)?;
        writer.write_header(&header)?;
        writer.finish(&header)?;
    }
    println!("written: {} bytes", buf.len());
    match alignment::io::reader::Builder::default().build_from_reader(&buf[..]) {
        Ok(mut reader) => {
            let h = reader.read_header()?;
            let n = reader.records(&h).count();
            println!("read back: header ok, {n} records");
            println!("holds");
            Ok(())
        }
        Err(e) => {
            println!("VIOLATED: the generic reader cannot open the generic writer's empty SAM.gz: {:?} ({e})", e.kind());
            std::process::exit(1)
        }
    }
}
